"""Further generated files: action methods (Gen/Methods.v), timing parameters (Gen/Params.v),
server tables and raw recordings (Gen/ServerTables.v, Gen/RecLines_*.v)."""
from __future__ import annotations

import ast
import enum
import inspect
import os
import textwrap
from fractions import Fraction

from .translate import HEADER, cbool, cident, clist, comment, copt, ct


# ----------------------------------------------------------------------------- methods
def _const_str(n):
    return n.value if isinstance(n, ast.Constant) and isinstance(n.value, str) else None


def mexpr_term(node, params):
    """value expression of a self._put(<const>, <expr>) call"""
    s = _const_str(node)
    if s is not None:
        return f"(MEConst {ct(s)})"
    if isinstance(node, ast.Name) and node.id in params:
        return "MEParam"
    # p.value
    if isinstance(node, ast.Attribute) and node.attr == "value" and isinstance(node.value, ast.Name) and node.value.id in params:
        return "MEValueAttr"
    # "<lit>" if p is None else str(p)
    if (
        isinstance(node, ast.IfExp)
        and _const_str(node.body) is not None
        and isinstance(node.test, ast.Compare)
        and isinstance(node.test.left, ast.Name)
        and node.test.left.id in params
        and len(node.test.ops) == 1
        and isinstance(node.test.ops[0], ast.Is)
        and isinstance(node.test.comparators[0], ast.Constant)
        and node.test.comparators[0].value is None
        and isinstance(node.orelse, ast.Call)
        and isinstance(node.orelse.func, ast.Name)
        and node.orelse.func.id == "str"
        and len(node.orelse.args) == 1
        and isinstance(node.orelse.args[0], ast.Name)
        and node.orelse.args[0].id == node.test.left.id
    ):
        return f"(MENoneOrStr {ct(_const_str(node.body))})"
    # f"<prefix>{p}<suffix>"
    if isinstance(node, ast.JoinedStr):
        pre, suf, seen = "", "", False
        for v in node.values:
            if isinstance(v, ast.Constant) and isinstance(v.value, str):
                if seen:
                    suf += v.value
                else:
                    pre += v.value
            elif isinstance(v, ast.FormattedValue) and not seen and isinstance(v.value, ast.Name) and v.value.id in params and v.conversion == -1 and v.format_spec is None:
                seen = True
            else:
                return None
        if seen:
            return f"(MEFmt {ct(pre)} {ct(suf)})"
    return None


def is_docstring(st):
    return isinstance(st, ast.Expr) and isinstance(st.value, ast.Constant) and isinstance(st.value.value, str)


def method_body_term(fn, volspecs):
    try:
        tree = ast.parse(textwrap.dedent(inspect.getsource(fn)))
    except Exception:
        return "MOpaque"
    fdef = tree.body[0]
    if not isinstance(fdef, ast.FunctionDef):
        return "MOpaque"
    args = [a.arg for a in fdef.args.args]
    if not args or args[0] != "self" or fdef.args.vararg or fdef.args.kwarg or fdef.args.kwonlyargs:
        return "MOpaque"
    params = args[1:]
    if len(params) > 1:
        return "MOpaque"
    body = [st for st in fdef.body if not is_docstring(st)]
    guard = None
    # optional guard:  if len(p) != k: raise ...
    if (
        len(body) == 2
        and isinstance(body[0], ast.If)
        and not body[0].orelse
        and len(body[0].body) == 1
        and isinstance(body[0].body[0], ast.Raise)
        and isinstance(body[0].test, ast.Compare)
        and len(body[0].test.ops) == 1
        and isinstance(body[0].test.ops[0], ast.NotEq)
        and isinstance(body[0].test.left, ast.Call)
        and isinstance(body[0].test.left.func, ast.Name)
        and body[0].test.left.func.id == "len"
        and len(body[0].test.left.args) == 1
        and isinstance(body[0].test.left.args[0], ast.Name)
        and body[0].test.left.args[0].id in params
        and isinstance(body[0].test.comparators[0], ast.Constant)
        and isinstance(body[0].test.comparators[0].value, int)
    ):
        guard = body[0].test.comparators[0].value
        body = body[1:]
    if len(body) != 1 or not isinstance(body[0], ast.Expr) or not isinstance(body[0].value, ast.Call):
        return "MOpaque"
    call = body[0].value
    # self._put("<F>", <expr>)
    if (
        isinstance(call.func, ast.Attribute)
        and call.func.attr == "_put"
        and isinstance(call.func.value, ast.Name)
        and call.func.value.id == "self"
        and len(call.args) == 2
        and not call.keywords
        and _const_str(call.args[0]) is not None
    ):
        e = mexpr_term(call.args[1], params)
        if e is None:
            return "MOpaque"
        return f"(MPut {ct(_const_str(call.args[0]))} {e} {copt(guard, lambda k: f'{k}%nat')})"
    # do_vol_up(self, step_size[=step_size], function="VOL")
    if isinstance(call.func, ast.Name) and call.func.id in volspecs and guard is None and len(params) == 1:
        pos = list(call.args)
        kw = {k.arg: k.value for k in call.keywords}
        names = ["self", "step_size", "function"]
        bound = {}
        for n, a in zip(names, pos):
            bound[n] = a
        for k, v in kw.items():
            if k in bound or k not in names:
                return "MOpaque"
            bound[k] = v
        if set(bound) != set(names):
            return "MOpaque"
        if not (isinstance(bound["self"], ast.Name) and bound["self"].id == "self"):
            return "MOpaque"
        if not (isinstance(bound["step_size"], ast.Name) and bound["step_size"].id == params[0]):
            return "MOpaque"
        f = _const_str(bound["function"])
        if f is None:
            return "MOpaque"
        # the global must really be the analysed helper of the same module
        target = fn.__globals__.get(call.func.id)
        if target is not volspecs[call.func.id][0]:
            return "MOpaque"
        return f"(MVol vs_{cident(call.func.id)} {ct(f)})"
    return "MOpaque"


def volspec_term(fn):
    """AST of do_vol_up / do_vol_down:
         value = "<word>"
         if step_size in [<ints>]:
             value = "<pre>{}<post>".format(step_size | int(step_size))
         self._put(function, value)
    """
    try:
        tree = ast.parse(textwrap.dedent(inspect.getsource(fn)))
    except Exception:
        return None
    fdef = tree.body[0]
    args = [a.arg for a in fdef.args.args]
    if args != ["self", "step_size", "function"]:
        return None
    body = [st for st in fdef.body if not is_docstring(st)]
    if len(body) != 3:
        return None
    a, b, c = body
    if not (isinstance(a, ast.Assign) and len(a.targets) == 1 and isinstance(a.targets[0], ast.Name) and _const_str(a.value) is not None):
        return None
    var = a.targets[0].id
    word = _const_str(a.value)
    if not (
        isinstance(b, ast.If)
        and not b.orelse
        and len(b.body) == 1
        and isinstance(b.test, ast.Compare)
        and isinstance(b.test.left, ast.Name)
        and b.test.left.id == "step_size"
        and len(b.test.ops) == 1
        and isinstance(b.test.ops[0], ast.In)
        and isinstance(b.test.comparators[0], (ast.List, ast.Tuple))
    ):
        return None
    steps = []
    for el in b.test.comparators[0].elts:
        if isinstance(el, ast.Constant) and isinstance(el.value, int) and not isinstance(el.value, bool):
            steps.append(el.value)
        else:
            return None
    st = b.body[0]
    if not (isinstance(st, ast.Assign) and len(st.targets) == 1 and isinstance(st.targets[0], ast.Name) and st.targets[0].id == var):
        return None
    v = st.value
    if not (isinstance(v, ast.Call) and isinstance(v.func, ast.Attribute) and v.func.attr == "format" and _const_str(v.func.value) is not None and len(v.args) == 1 and not v.keywords):
        return None
    fmt = _const_str(v.func.value)
    if fmt.count("{}") != 1 or "{" in fmt.replace("{}", "") or "}" in fmt.replace("{}", ""):
        return None
    pre, post = fmt.split("{}")
    arg = v.args[0]
    if isinstance(arg, ast.Name) and arg.id == "step_size":
        as_int = False
    elif isinstance(arg, ast.Call) and isinstance(arg.func, ast.Name) and arg.func.id == "int" and len(arg.args) == 1 and isinstance(arg.args[0], ast.Name) and arg.args[0].id == "step_size":
        as_int = True
    else:
        return None
    if not (
        isinstance(c, ast.Expr)
        and isinstance(c.value, ast.Call)
        and isinstance(c.value.func, ast.Attribute)
        and c.value.func.attr == "_put"
        and isinstance(c.value.func.value, ast.Name)
        and c.value.func.value.id == "self"
        and len(c.value.args) == 2
        and isinstance(c.value.args[0], ast.Name)
        and c.value.args[0].id == "function"
        and isinstance(c.value.args[1], ast.Name)
        and c.value.args[1].id == var
    ):
        return None
    return "{| vs_word := %s; vs_steps := %s; vs_pre := %s; vs_post := %s; vs_int := %s |}" % (
        ct(word),
        clist([f"({k})%Z" for k in steps]),
        ct(pre),
        ct(post),
        cbool(as_int),
    )


def gen_methods(classes, table):
    from ynca.function import FunctionMixinBase
    from ynca.subunit import SubunitBase
    import ynca.subunits.zone as Z

    out = [HEADER, "From Ynca Require Import Model.Methods.\n"]
    volspecs = {}
    for name in ("do_vol_up", "do_vol_down"):
        fn = getattr(Z, name, None)
        term = volspec_term(fn) if fn is not None else None
        if term is not None:
            volspecs[name] = (fn, term)
            out.append(f"Definition vs_{cident(name)} : volspec := {term}.\n")
    base = set(dir(SubunitBase))
    cnames = []
    for c in classes:
        items = []
        for m in sorted(dir(c)):
            if m.startswith("_") or m in base:
                continue
            raw = inspect.getattr_static(c, m)
            if isinstance(raw, FunctionMixinBase) or isinstance(raw, property):
                continue
            fn = getattr(c, m)
            if not inspect.isfunction(fn):
                if callable(fn):
                    items.append(f"({ct(m)}, MOpaque, None)")
                continue
            # default of the single parameter, if any
            sig = inspect.signature(fn)
            ps = list(sig.parameters.values())[1:]
            default = "None"
            if len(ps) == 1 and ps[0].default is not inspect.Parameter.empty:
                d = ps[0].default
                if d is None:
                    default = "(Some DNone)"
                elif isinstance(d, (int, float)) and not isinstance(d, bool):
                    fr = Fraction(d)
                    default = f"(Some (DNum ({fr.numerator})%Z {fr.denominator}%positive {cbool(isinstance(d, float))}))"
                else:
                    default = "(Some DOther)"
            items.append(f"({ct(m)}, {method_body_term(fn, volspecs)}, {default}) {comment(c.__name__ + '.' + m)}")
        cid = c.id.value if isinstance(c.id, enum.Enum) else str(c.id)
        out.append(f"Definition methods_{cident(c.__name__)} : list (text * mbody * option mdefault) :=\n  [" + ";\n   ".join(items) + "].\n")
        cnames.append(f"({ct(cid)}, methods_{cident(c.__name__)})")
    out.append("Definition all_methods : list (text * list (text * mbody * option mdefault)) :=\n  " + clist(cnames) + ".\n")
    return "\n".join(out)


# ----------------------------------------------------------------------------- params
def gen_params():
    """Timing constants: class attributes and the AST of the wait expressions."""
    import ynca.api as A
    import ynca.connection as C
    import ynca.subunit as S
    import serial.threaded as T

    def micros(x):
        return int(round(Fraction(str(x)) * 1_000_000))

    out = [HEADER, "Local Open Scope Z_scope.\n"]
    P = C.YncaProtocol
    out.append(f"Definition p_spacing : Z := {micros(P.COMMAND_SPACING)}.      (* COMMAND_SPACING = {P.COMMAND_SPACING} s *)")
    out.append(f"Definition p_keepalive : Z := {micros(P.KEEP_ALIVE_INTERVAL)}.  (* KEEP_ALIVE_INTERVAL = {P.KEEP_ALIVE_INTERVAL} s *)")
    out.append(f"Definition p_check_timeout : Z := {micros(A.CONNECTION_CHECK_TIMEOUT)}.  (* CONNECTION_CHECK_TIMEOUT *)")

    # wait expression:  2 + n * (YncaProtocol.COMMAND_SPACING * 5)   in subunit.initialize and api._detect_available_subunits,
    # read as an affine function  base + per_cmd * n  of the one variable it contains; the expression may sit in the
    # wait() call, in a local assigned once, or in a helper with a single return (one level)
    def affine(e, env):
        """-> (a, b, var) with value a + b*var, Fractions; None if not of that form.  env: name -> expression"""
        if isinstance(e, ast.Constant) and isinstance(e.value, (int, float)) and not isinstance(e.value, bool):
            return (Fraction(str(e.value)), Fraction(0), None)
        if isinstance(e, ast.Attribute) and e.attr == "COMMAND_SPACING":
            return (Fraction(str(P.COMMAND_SPACING)), Fraction(0), None)
        if isinstance(e, ast.Name):
            if e.id in env and env[e.id] is not None:
                r = affine(env[e.id], {k: v for k, v in env.items() if k != e.id})
                if r is not None:
                    return r
            return (Fraction(0), Fraction(1), e.id)  # the variable: the number of commands sent
        if isinstance(e, ast.BinOp) and isinstance(e.op, (ast.Add, ast.Mult)):
            l, r = affine(e.left, env), affine(e.right, env)
            if l is None or r is None:
                return None
            v = l[2] or r[2]
            if l[2] and r[2] and l[2] != r[2]:
                return None
            if isinstance(e.op, ast.Add):
                return (l[0] + r[0], l[1] + r[1], v)
            if l[1] != 0 and r[1] != 0:
                return None
            return (l[0] * r[0], l[0] * r[1] + l[1] * r[0], v)
        return None

    def single_assignments(fdef):
        env, seen = {}, {}
        for n in ast.walk(fdef):
            if isinstance(n, ast.Assign) and len(n.targets) == 1 and isinstance(n.targets[0], ast.Name):
                seen[n.targets[0].id] = seen.get(n.targets[0].id, 0) + 1
                env[n.targets[0].id] = n.value
            elif isinstance(n, (ast.AugAssign, ast.AnnAssign)) and isinstance(getattr(n, "target", None), ast.Name):
                seen[n.target.id] = seen.get(n.target.id, 0) + 2
        return {k: v for k, v in env.items() if seen.get(k) == 1}

    def helper_expr(call, owner_cls, module):
        """the single returned expression of a one-argument helper (method of the class or module-level function),
        with its parameter renamed to the call's argument"""
        f = call.func
        target = None
        if isinstance(f, ast.Attribute) and isinstance(f.value, ast.Name) and f.value.id in ("self", "cls", owner_cls.__name__):
            target = getattr(owner_cls, f.attr, None)
        elif isinstance(f, ast.Name):
            target = getattr(module, f.id, None)
        elif isinstance(f, ast.Attribute) and isinstance(f.value, ast.Name):
            target = getattr(getattr(module, f.value.id, None), f.attr, None)
        target = getattr(target, "__func__", target)
        if target is None or len(call.args) != 1 or call.keywords:
            return None
        try:
            hd = ast.parse(textwrap.dedent(inspect.getsource(target))).body[0]
        except Exception:  # noqa
            return None
        params = [a.arg for a in hd.args.args if a.arg not in ("self", "cls")]
        rets = [n for n in ast.walk(hd) if isinstance(n, ast.Return)]
        if len(params) != 1 or len(rets) != 1 or rets[0].value is None:
            return None
        env = single_assignments(hd)
        env[params[0]] = call.args[0]
        return rets[0].value, env

    def wait_shape(fn, owner_cls, module):
        fdef = ast.parse(textwrap.dedent(inspect.getsource(fn))).body[0]
        env = single_assignments(fdef)
        found = []
        for node in ast.walk(fdef):
            if isinstance(node, ast.Call) and isinstance(node.func, ast.Attribute) and node.func.attr == "wait" and len(node.args) == 1:
                e = node.args[0]
                if isinstance(e, ast.Name) and e.id in env:
                    e = env[e.id]
                r = None
                if isinstance(e, ast.Call):
                    h = helper_expr(e, owner_cls, module)
                    if h is not None:
                        r = affine(h[0], {**env, **h[1]})
                else:
                    r = affine(e, {k: v for k, v in env.items() if not isinstance(v, ast.BinOp) or True})
                if r is not None and r[2] is not None and r[0] > 0 and r[1] > 0:
                    found.append((r[0], r[1]))
                else:
                    found.append(None)
        return found

    for nm, fn, oc, mod in (("init", S.SubunitBase.initialize, S.SubunitBase, S), ("detect", A.YncaApi._detect_available_subunits, A.YncaApi, A)):
        ws = wait_shape(fn, oc, mod)
        if len(ws) == 1 and ws[0] is not None:
            base, per = ws[0]
            out.append(f"Definition p_{nm}_base : Z := {int(base * 1_000_000)}.")
            out.append(f"Definition p_{nm}_per_cmd : Z := {int(per * 1_000_000)}.")
            out.append(f"Definition p_{nm}_wait_known : bool := true.")
        else:
            out.append(f"Definition p_{nm}_base : Z := 0.\nDefinition p_{nm}_per_cmd : Z := 0.\nDefinition p_{nm}_wait_known : bool := false.")

    # join time-outs: connection_lost's join of the sender, pyserial's stop()
    def join_consts(fn):
        tree = ast.parse(textwrap.dedent(inspect.getsource(fn)))
        res = []
        for node in ast.walk(tree):
            if isinstance(node, ast.Call) and isinstance(node.func, ast.Attribute) and node.func.attr == "join":
                if len(node.args) == 1 and isinstance(node.args[0], ast.Constant):
                    res.append(node.args[0].value)
                else:
                    res.append(None)
        return res

    jl = join_consts(P.connection_lost)
    js = join_consts(T.ReaderThread.stop)
    out.append(f"Definition p_join_sender : Z := {micros(jl[0]) if len(jl) == 1 and jl[0] is not None else -1}.")
    out.append(f"Definition p_join_reader : Z := {micros(js[0]) if len(js) == 1 and js[0] is not None else -1}.")

    # close() / connect() of YncaConnection, for Model/Reconnect.v: does close() clear the protocol's disconnect
    # callback (an assignment `<x>._disconnect_callback = None` on its straight path, i.e. not only inside the branch
    # for one kind of calling thread), does connect()'s wrapper test `_closed` before calling the user's callback, does
    # connect() reset `_closed`.  Anything not found reads as false (fail-closed).
    def fdef_of(fn):
        return ast.parse(textwrap.dedent(inspect.getsource(fn))).body[0]

    def is_self_attr(t, name):
        return isinstance(t, ast.Attribute) and t.attr == name and isinstance(t.value, ast.Name) and t.value.id == "self"

    def assigns_const(stmts, pred, const):
        """an assignment target satisfying pred with the constant value, anywhere below stmts"""
        for st in stmts:
            for n in ast.walk(st):
                if isinstance(n, ast.Assign) and isinstance(n.value, ast.Constant) and n.value.value is const:
                    if any(pred(t) for t in n.targets):
                        return True
        return False

    clears = wrapper_checks = rearms = False
    try:
        cdef = fdef_of(C.YncaConnection.close)
        # the clearing must not depend on WHICH thread calls: statements guarded by a test that mentions
        # current_thread are left out
        def thread_guarded(st):
            return isinstance(st, ast.If) and any(isinstance(x, ast.Attribute) and x.attr == "current_thread" for x in ast.walk(st.test))

        plain = [st for st in cdef.body if not thread_guarded(st)]
        # one level of helper methods called as self.<m>(...) on that path is looked into as well
        helpers = []
        for st in plain:
            for n in ast.walk(st):
                if isinstance(n, ast.Call) and isinstance(n.func, ast.Attribute) and isinstance(n.func.value, ast.Name) and n.func.value.id == "self":
                    m = getattr(C.YncaConnection, n.func.attr, None)
                    if callable(m):
                        try:
                            helpers += fdef_of(m).body
                        except Exception:  # noqa
                            pass
        clears = assigns_const(plain + helpers, lambda t: isinstance(t, ast.Attribute) and t.attr == "_disconnect_callback", None)
        kdef = fdef_of(C.YncaConnection.connect)
        rearms = assigns_const(kdef.body, lambda t: is_self_attr(t, "_closed"), False)
        for n in ast.walk(kdef):
            if isinstance(n, ast.FunctionDef) and n is not kdef:
                for i in ast.walk(n):
                    if isinstance(i, ast.If):
                        names = [x for x in ast.walk(i.test) if isinstance(x, ast.UnaryOp) and isinstance(x.op, ast.Not) and is_self_attr(x.operand, "_closed")]
                        calls = [x for x in ast.walk(i) if isinstance(x, ast.Call) and isinstance(x.func, ast.Name) and x.func.id == "disconnect_callback"]
                        other_calls = [x for x in ast.walk(n) if isinstance(x, ast.Call) and isinstance(x.func, ast.Name) and x.func.id == "disconnect_callback" and x not in calls]
                        if names and calls and not other_calls:
                            wrapper_checks = True
    except Exception:  # noqa: unreadable -> all false
        pass
    # YncaApi.initialize() and what it calls, for Model/Startup.v (fail-closed: anything unrecognised reads as false)
    def wait_failure_raises(fn):
        """the one timed wait() of fn sits in the test of an `if`, and the branch taken when the wait timed out
        contains a `raise` as a direct statement"""
        try:
            fdef = fdef_of(fn)
        except Exception:  # noqa
            return False
        hits = []
        # the wait's result may first be put into a local that is assigned once:  ok = ev.wait(t);  if not ok: raise
        local = None
        assigned = {}
        for n in ast.walk(fdef):
            if isinstance(n, ast.Assign) and len(n.targets) == 1 and isinstance(n.targets[0], ast.Name):
                assigned[n.targets[0].id] = assigned.get(n.targets[0].id, 0) + 1
                if isinstance(n.value, ast.Call) and isinstance(n.value.func, ast.Attribute) and n.value.func.attr == "wait":
                    local = n.targets[0].id
        if local is not None and assigned.get(local) != 1:
            local = None
        for n in ast.walk(fdef):
            if isinstance(n, ast.If):
                calls = [x for x in ast.walk(n.test) if isinstance(x, ast.Call) and isinstance(x.func, ast.Attribute) and x.func.attr == "wait"]
                if len(calls) == 1:
                    neg = isinstance(n.test, ast.UnaryOp) and isinstance(n.test.op, ast.Not) and n.test.operand is calls[0]
                    pos = n.test is calls[0]
                    branch = n.body if neg else (n.orelse if pos else [])
                    hits.append(any(isinstance(st, ast.Raise) for st in branch))
                elif local is not None:
                    neg = isinstance(n.test, ast.UnaryOp) and isinstance(n.test.op, ast.Not) and isinstance(n.test.operand, ast.Name) and n.test.operand.id == local
                    pos = isinstance(n.test, ast.Name) and n.test.id == local
                    if neg or pos:
                        branch = n.body if neg else n.orelse
                        hits.append(any(isinstance(st, ast.Raise) for st in branch))
        waits = [x for x in ast.walk(fdef) if isinstance(x, ast.Call) and isinstance(x.func, ast.Attribute) and x.func.attr == "wait"]
        return len(waits) == 1 and hits == [True]

    def calls_not_swallowed(fn, method, owner=None):
        """every call `<x>.<method>()` in fn is either outside any try, or inside tries all of whose handlers end with
        a bare `raise` (and no `finally`/`else` trickery is accepted: orelse must be empty).  With owner given, a call
        `self.<h>(...)` of a method h of owner that itself passes this test counts as such a call (one level)."""
        try:
            fdef = fdef_of(fn)
        except Exception:  # noqa
            return False
        found = [0]
        ok = [True]
        via = set()
        if owner is not None:
            for nm, m in vars(owner).items():
                if callable(m) and m is not fn and getattr(m, "__name__", None) != getattr(fn, "__name__", None):
                    try:
                        src_has = f".{method}(" in inspect.getsource(m)
                    except Exception:  # noqa
                        src_has = False
                    if src_has and calls_not_swallowed(m, method):
                        via.add(nm)

        def visit(node, guards):
            for ch in ast.iter_child_nodes(node):
                if isinstance(ch, ast.Try):
                    for st in ch.body:
                        visit_stmt(st, guards + [ch])
                    for part in (ch.orelse, ch.finalbody):
                        for st in part:
                            visit_stmt(st, guards)
                    for h in ch.handlers:
                        for st in h.body:
                            visit_stmt(st, guards)
                else:
                    visit_stmt(ch, guards)

        def visit_stmt(node, guards):
            if isinstance(node, ast.Call) and isinstance(node.func, ast.Attribute) and ((node.func.attr == method and not node.args) or (node.func.attr in via and isinstance(node.func.value, ast.Name) and node.func.value.id == "self")):
                found[0] += 1
                for t in guards:
                    for h in t.handlers:
                        last = h.body[-1] if h.body else None
                        if not (isinstance(last, ast.Raise) and last.exc is None):
                            ok[0] = False
                    if t.orelse:
                        ok[0] = False
            if isinstance(node, (ast.FunctionDef, ast.Lambda)) and node is not fdef:
                return
            visit(node, guards)

        visit(fdef, [])
        # statements that leave the loop early or skip an iteration silently are not accepted either
        if any(isinstance(n, (ast.Continue, ast.Break)) for n in ast.walk(fdef)):
            ok[0] = False
        return found[0] >= 1 and ok[0]

    def finally_closes(fn):
        """try: ...; <flag> = True   finally: if not <flag>: self.close()   with <flag> = False before the try, and the
        calls of the two start-up helpers inside the try-body"""
        try:
            fdef = fdef_of(fn)
        except Exception:  # noqa
            return False
        tries = [n for n in fdef.body if isinstance(n, ast.Try)]
        if len(tries) != 1:
            return False
        t = tries[0]
        helpers_in = all(any(isinstance(x, ast.Call) and isinstance(x.func, ast.Attribute) and x.func.attr == h for st in t.body for x in ast.walk(st)) for h in ("_detect_available_subunits", "_initialize_available_subunits"))
        no_ret = not any(isinstance(x, ast.Return) for st in t.body for x in ast.walk(st))
        # second accepted shape:  try: ...  except BaseException (or bare except): ...; self.close(); ...; raise
        if len(t.handlers) == 1 and not t.orelse and not t.finalbody and t.body:
            h = t.handlers[0]
            catches_all = h.type is None or (isinstance(h.type, ast.Name) and h.type.id == "BaseException")
            closes = any(isinstance(x, ast.Call) and isinstance(x.func, ast.Attribute) and x.func.attr == "close" and isinstance(x.func.value, ast.Name) and x.func.value.id == "self" for st in h.body if not isinstance(st, (ast.If, ast.Try, ast.For, ast.While)) for x in ast.walk(st))
            reraises = bool(h.body) and isinstance(h.body[-1], ast.Raise) and h.body[-1].exc is None
            return bool(catches_all and closes and reraises and helpers_in and no_ret)
        if t.handlers or t.orelse or not t.body or len(t.finalbody) != 1:
            return False
        last = t.body[-1]
        if not (isinstance(last, ast.Assign) and len(last.targets) == 1 and isinstance(last.targets[0], ast.Name) and isinstance(last.value, ast.Constant) and last.value.value is True):
            return False
        flag = last.targets[0].id
        init_false = any(isinstance(n, ast.Assign) and len(n.targets) == 1 and isinstance(n.targets[0], ast.Name) and n.targets[0].id == flag and isinstance(n.value, ast.Constant) and n.value.value is False for n in fdef.body[: fdef.body.index(t)])
        others = [n for n in ast.walk(fdef) if isinstance(n, ast.Assign) and any(isinstance(x, ast.Name) and x.id == flag for x in n.targets)]
        fin = t.finalbody[0]
        shape = (isinstance(fin, ast.If) and isinstance(fin.test, ast.UnaryOp) and isinstance(fin.test.op, ast.Not) and isinstance(fin.test.operand, ast.Name) and fin.test.operand.id == flag
                 and not fin.orelse and any(isinstance(x, ast.Call) and isinstance(x.func, ast.Attribute) and x.func.attr == "close" and isinstance(x.func.value, ast.Name) and x.func.value.id == "self" for st in fin.body for x in ast.walk(st)))
        helpers_inside = all(any(isinstance(x, ast.Call) and isinstance(x.func, ast.Attribute) and x.func.attr == h for st in t.body for x in ast.walk(st)) for h in ("_detect_available_subunits", "_initialize_available_subunits"))
        no_return_in_try = not any(isinstance(x, ast.Return) for st in t.body for x in ast.walk(st))
        return bool(init_false and len(others) == 2 and shape and helpers_inside and no_return_in_try)

    # two facts about YncaProtocol, for C01 and C10 (fail-closed)
    def enqueue_lossless(P):
        """raw()/put()/the keep-alive hand their item to the send queue and nothing on that path can drop it: the put is a
        plain blocking put(item), or a non-blocking one on a queue created without a size bound; no exception handler on
        the path; one level of self.<helper>() calls is followed"""
        try:
            cls = ast.parse(textwrap.dedent(inspect.getsource(P))).body[0]
            unbounded = None
            for n in ast.walk(cls):
                if isinstance(n, ast.Assign) and any(isinstance(t, ast.Attribute) and t.attr == "_send_queue" for t in n.targets) and isinstance(n.value, ast.Call):
                    f = n.value.func
                    nm = f.attr if isinstance(f, ast.Attribute) else getattr(f, "id", None)
                    if nm in ("Queue", "LifoQueue", "PriorityQueue"):
                        a = list(n.value.args) + [k.value for k in n.value.keywords]
                        ub = not a or all(isinstance(x, ast.Constant) and x.value == 0 for x in a)
                        if nm != "Queue":
                            return False
                    elif nm == "SimpleQueue":
                        ub = True
                    else:
                        return False
                    unbounded = ub if unbounded is None else (unbounded and ub)
            if unbounded is None:
                return False

            def puts_in(fd, depth):
                """number of accepted puts reachable; None when something unacceptable is on the path"""
                cnt = 0
                for n in ast.walk(fd):
                    if isinstance(n, ast.ExceptHandler):
                        return None
                    if isinstance(n, ast.Call) and isinstance(n.func, ast.Attribute):
                        tgt = n.func.value
                        if isinstance(tgt, ast.Attribute) and tgt.attr == "_send_queue":
                            if n.func.attr == "put" and len(n.args) == 1 and not n.keywords:
                                cnt += 1
                            elif n.func.attr in ("put", "put_nowait") and unbounded and len(n.args) >= 1:
                                cnt += 1
                            else:
                                return None
                        elif isinstance(tgt, ast.Name) and tgt.id == "self" and depth == 0 and n.func.attr not in ("raw", "put", "get"):
                            h = getattr(P, n.func.attr, None)
                            if callable(h) and "_send_queue" in inspect.getsource(h):
                                r = puts_in(fdef_of(h), 1)
                                if r is None:
                                    return None
                                cnt += r
                return cnt

            for name in ("raw", "put", "_send_keepalive"):
                r = puts_in(fdef_of(getattr(P, name)), 0)
                if r is None or r < 1:
                    return False
            g = fdef_of(P.get)
            if any(isinstance(n, ast.ExceptHandler) for n in ast.walk(g)):
                return False
            return True
        except Exception:
            return False

    def handle_line_raises_nothing(P):
        """handle_line contains no raise statement of its own (what it calls -- the message callback -- is C10's
        decode-inside-the-handler matter)"""
        try:
            fd = fdef_of(P.handle_line)
            return not any(isinstance(n, ast.Raise) for n in ast.walk(fd))
        except Exception:
            return False

    b = lambda x: "true" if x else "false"  # noqa: E731
    out.append(f"Definition p_enqueue_lossless : bool := {b(enqueue_lossless(P))}.")
    out.append(f"Definition p_handle_line_raises_nothing : bool := {b(handle_line_raises_nothing(P))}.")
    out.append(f"Definition p_detect_raises : bool := {b(wait_failure_raises(A.YncaApi._detect_available_subunits))}.")
    out.append(f"Definition p_subinit_raises : bool := {b(wait_failure_raises(S.SubunitBase.initialize))}.")
    out.append(f"Definition p_init_failure_propagates : bool := {b(calls_not_swallowed(A.YncaApi._initialize_available_subunits, 'initialize', A.YncaApi))}.")
    out.append(f"Definition p_finally_closes : bool := {b(finally_closes(A.YncaApi.initialize))}.")
    out.append(f"Definition p_close_clears_cb : bool := {b(clears)}.")
    out.append(f"Definition p_wrapper_checks_closed : bool := {b(wrapper_checks)}.")
    out.append(f"Definition p_connect_rearms : bool := {b(rearms)}.")
    return "\n".join(out) + "\n"


def generate(classes, table, enums, recs):
    return {"Methods.v": gen_methods(classes, table), "Params.v": gen_params()}
