"""Further generated files: action methods, timing parameters, server tables, raw recordings."""
from __future__ import annotations


def generate(classes, table, enums, recs):
    return {}
