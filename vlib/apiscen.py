"""Virtual receivers and API-level sessions (YncaApi.initialize / connection_check / close,
SubunitBase.initialize) under the deterministic simulation harness."""
from __future__ import annotations

import enum
import random

from . import dsim
from .subharness import canon_value, class_info
from .translate import recordings, split_sfv

GROUPS_HINT = ("BASIC", "METAINFO", "SCENENAME", "INPNAME", "RDSINFO", "FMRDSINFO")


# ------------------------------------------------------------------------------ recorded receivers
def recorded_devices():
    """name -> store {subunit: {function: last value the recorded receiver reported}} (independent reader).
    Replies in the recordings lag behind the requests (latency above the command pace), so the device is
    rebuilt as a value store rather than as a request -> reply table."""
    devs = {}
    for name, entries in recordings():
        store = {}
        for direction, line in entries:
            if direction != "Received":
                continue
            t = split_sfv(line)
            if t:
                store.setdefault(t[0], {})[t[1]] = t[2]
        devs[name] = store
    return devs


def recorded_receiver(store, infos):
    groups = {}
    for cls, cid, funcs in infos:
        for attr, f in funcs:
            if f.initializer and cid in store and f.name in store[cid]:
                groups.setdefault((cid, f.initializer), []).append(f.name)
    import copy

    return VirtualReceiver(copy.deepcopy(store), groups)


class VirtualReceiver:
    """store: {subunit: {function: value}}; groups: {(subunit, group): [functions]}"""

    def __init__(self, store, groups=None, missing="@UNDEFINED", table=None):
        self.store = store
        self.groups = groups or {}
        self.missing = missing
        self.table = table  # recorded request -> replies
        self.answered = []  # (request, replies)

    def respond(self, line, idx):
        if self.table is not None:
            rep = self.table.get(line)
            if rep is None:
                rep = [self.missing]
            self.answered.append((line, list(rep)))
            return list(rep)
        t = split_sfv(line)
        if not t:
            rep = [self.missing]
        else:
            S, F, V = t
            if V == "?":
                if (S, F) in self.groups:
                    rep = [f"@{S}:{f}={self.store[S][f]}" for f in self.groups[(S, F)] if f in self.store.get(S, {})]
                    if not rep:
                        rep = [self.missing]
                elif S in self.store and F in self.store[S]:
                    rep = [f"@{S}:{F}={self.store[S][F]}"]
                elif S in self.store:
                    rep = [self.missing]
                else:
                    rep = ["@RESTRICTED" if self.missing == "@RESTRICTED" else "@UNDEFINED"]
            else:
                if S in self.store and F in self.store[S]:
                    self.store[S][F] = V
                    rep = [line]
                else:
                    rep = [self.missing]
        self.answered.append((line, list(rep)))
        return rep


def valid_value(rng, f):
    from ynca import converters as C

    cv = f.converter
    parts = cv._converters if type(cv) is C.MultiConverter else [cv]
    p = rng.choice(parts)
    if type(p) is C.EnumConverter:
        ms = [m.value for n, m in p.datatype.__members__.items() if n != "UNKNOWN"]
        return rng.choice(ms)
    if type(p) in (C.IntConverter, C.IntOrNoneConverter):
        return str(rng.randrange(0, 1700))
    if type(p) is C.FloatConverter:
        return "%.1f" % (rng.randrange(-1600, 330) / 10)
    return rng.choice(["Living Room", "Zoné ß", "", "a=b:c", "Radio 1", "x" * rng.randrange(1, 20)])


def synthetic_receiver(rng, infos):
    """random subset of the optional subunits, random subset of functions with valid values, group answers"""
    store, groups = {}, {}
    present = []
    for cls, cid, funcs in infos:
        if cid != "SYS" and rng.random() < 0.55:
            continue
        present.append(cid)
        d = {}
        for attr, f in funcs:
            if f.name == "AVAIL":
                continue
            if rng.random() < 0.7:
                d[f.name] = valid_value(rng, f)
                if f.initializer:
                    groups.setdefault((cid, f.initializer), []).append(f.name)
        if cid != "SYS":
            d["AVAIL"] = rng.choice(["Ready", "Not Ready", "Not Connected"])
        store[cid] = d
    store.setdefault("SYS", {})["VERSION"] = "1.%d/2.%d" % (rng.randrange(10, 99), rng.randrange(10, 99))
    store["SYS"].setdefault("MODELNAME", "RX-V" + str(rng.randrange(100, 999)))
    return VirtualReceiver(store, groups, missing=rng.choice(["@UNDEFINED", "@RESTRICTED"])), present


class ApiSession:
    def __init__(self, seed, receiver, latency_us=20000, gap_us=500, switch_prob=0.2, log_size=0, choices=None, open_error=False, more_receivers=()):
        self.sim = dsim.Sim(seed=seed, switch_prob=switch_prob, choices=choices, max_events=400000)
        self.receiver = receiver
        self.dev = dsim.Device(self.sim, respond=receiver.respond, latency_us=latency_us, gap_us=gap_us)
        self.devs = [self.dev] + [dsim.Device(self.sim, respond=r.respond, latency_us=latency_us, gap_us=gap_us) for r in more_receivers]
        self.decoy_dev = None
        self.ports = {}
        self.port = None
        self.api = None
        self.result = None
        self.exc = None
        self.t_start = None
        self.t_end = None
        self.disconnects = []
        self.update_cbs = []
        self.open_error = open_error
        self.log_size = log_size
        self.extra = {}

    def _mkport(self, url):
        import serial

        if url.endswith("/decoy"):
            port = dsim.SimPort(self.sim, self.decoy_dev)
            self.ports["decoy"] = port
            return port
        if self.open_error:
            raise serial.SerialException("could not open port")
        tail = url.rsplit("/", 1)[-1]
        idx = int(tail) if tail.isdigit() else 0
        port = dsim.SimPort(self.sim, self.devs[idx])
        self.ports[idx] = port
        if idx == 0:
            self.port = port
        return port

    def run(self, body):
        def main():
            undo = dsim.install_port(self.sim, self._mkport)
            try:
                body(self)
            except dsim.SimAbort:
                raise
            except BaseException as e:  # noqa
                self.extra["body_exc"] = f"{type(e).__name__}: {e}"
            finally:
                undo()

        self.sim.run(main, timeout_s=60)
        return self

    def make_api(self, idx=0):
        import ynca

        api = ynca.YncaApi("sim://%d" % idx if idx else "sim://", lambda: self.disconnects.append(self.sim.now), self.log_size)
        if idx == 0:
            self.api = api
        return api

    def start_decoy_connection(self, lines_at=()):
        """a second, healthy connection of the same process to another receiver, which speaks on its own:
        lines_at = [(virtual time in us, line)].  Its events are kept apart (dsim decoy).  Returns a closer."""
        from ynca.connection import YncaConnection

        sim = self.sim
        self.decoy_dev = dsim.Device(sim, respond=lambda line, idx: ["@SYS:MODELNAME=DECOY-1"] if line == "@SYS:MODELNAME=?" else ([line[:-1] + "Ready"] if line.endswith("=?") else [line]), latency_us=30000, gap_us=700, decoy=True)
        self.decoy_deliveries = []
        with sim.decoy():
            d = YncaConnection("sim://x/decoy")
            d.register_message_callback(lambda st, s_, f, v: self.decoy_deliveries.append((st.name, s_, f, v)))
            d.connect(lambda: None, 0)
        for t, line in lines_at:
            self.decoy_dev.emit_at(t, line.encode("utf-8") + b"\r\n")
        self.decoy_conn = d

        def stop():
            with sim.decoy():
                d.close()

        return stop

    def start_decoy_api(self, receiver):
        """another, healthy YncaApi object of the same process on another receiver, fully initialised.
        Returns (api, stop)."""
        import ynca

        sim = self.sim
        self.decoy_dev = dsim.Device(sim, respond=receiver.respond, latency_us=20000, gap_us=500, decoy=True)
        with sim.decoy():
            api2 = ynca.YncaApi("sim://x/decoy", lambda: None, 0)
            api2.initialize()

        def stop():
            with sim.decoy():
                api2.close()

        return api2, stop

    def call(self, fn):
        """run fn(), recording result / exception / virtual duration and the event index range"""
        self.t_start = self.sim.now
        self.i_start = len(self.sim.events)
        try:
            self.result = fn()
        except dsim.SimAbort:
            raise
        except BaseException as e:  # noqa
            self.exc = e
        self.t_end = self.sim.now
        self.i_end = len(self.sim.events)

    def sleep(self, seconds):
        dsim._TimeShim(self.sim).sleep(seconds)

    def threads_done(self):
        return all(t.state == "done" for t in self.sim.threads if t.name in ("reader", "sender"))


ACCESSORS = ["airplay", "bt", "dab", "ipod", "ipodusb", "main", "napster", "netradio", "pandora", "pc", "rhap", "server", "sirius", "siriusir", "siriusxm", "spotify", "sys", "tun", "uaw", "usb", "zone2", "zone3", "zone4"]


def accessor_ids(api):
    out = {}
    for a in ACCESSORS:
        o = getattr(api, a)
        out[a.upper()] = o
    return out
